//! C12 harness: ZIP 321 payment requests. Runs the public API of `zip321` on generated requests
//! and URI strings and prints Coq `case` terms with the observed outcomes. Every address string
//! occurring in a case is classified with the real `zcash_address` and shipped to the model as
//! a per-case table.
use std::collections::{BTreeMap, BTreeSet};

use proptest::strategy::{Strategy, ValueTree};
use proptest::test_runner::{Config, RngAlgorithm, TestRng, TestRunner};
use vcommon::*;
use zcash_address::{testing::arb_address, unified::{self, Encoding as _, Receiver}, ConversionError, ToAddress as _, TryFromAddress, ZcashAddress};
use zcash_protocol::{consensus::NetworkType, memo::MemoBytes, value::Zatoshis};
use zip321::{memo_from_base64, memo_to_base64, testing::arb_zip321_request, Payment, PaymentError, TransactionRequest, Zip321Error};

const MAX_MONEY: u64 = 21_000_000 * 100_000_000;

// ---- address shapes ------------------------------------------------------------------------------
// The model computes can_receive_memo / is_transparent_only itself from the shape of an address
// (kind; for a unified address the typecodes of its receivers). The shape is read through the
// public conversion API, never through the two predicates under test.

#[derive(Clone, Debug)]
enum Shape { Sprout, Sapling, P2pkh, P2sh, Tex, Unified(Vec<u32>) }
impl TryFromAddress for Shape {
    type Error = ();
    fn try_from_sprout(_: NetworkType, _: [u8; 64]) -> Result<Self, ConversionError<()>> { Ok(Shape::Sprout) }
    fn try_from_sapling(_: NetworkType, _: [u8; 43]) -> Result<Self, ConversionError<()>> { Ok(Shape::Sapling) }
    fn try_from_transparent_p2pkh(_: NetworkType, _: [u8; 20]) -> Result<Self, ConversionError<()>> { Ok(Shape::P2pkh) }
    fn try_from_transparent_p2sh(_: NetworkType, _: [u8; 20]) -> Result<Self, ConversionError<()>> { Ok(Shape::P2sh) }
    fn try_from_tex(_: NetworkType, _: [u8; 20]) -> Result<Self, ConversionError<()>> { Ok(Shape::Tex) }
    fn try_from_unified(_: NetworkType, ua: unified::Address) -> Result<Self, ConversionError<()>> {
        use zcash_address::unified::Container as _;
        Ok(Shape::Unified(ua.items_as_parsed().iter().map(|r| match r {
            Receiver::P2pkh(_) => 0,
            Receiver::P2sh(_) => 1,
            Receiver::Sapling(_) => 2,
            Receiver::Orchard(_) => 3,
            Receiver::Unknown { typecode, .. } => *typecode,
        }).collect()))
    }
}
fn shape_of(a: &ZcashAddress) -> Shape { a.clone().convert::<Shape>().expect("every address kind has a shape") }
fn shape_s(a: &ZcashAddress) -> String {
    match shape_of(a) {
        Shape::Sprout => "SSprout".into(), Shape::Sapling => "SSapling".into(), Shape::P2pkh => "SP2pkh".into(),
        Shape::P2sh => "SP2sh".into(), Shape::Tex => "STex".into(),
        Shape::Unified(tcs) => format!("(SUnified [{}])", tcs.iter().map(|t| t.to_string()).collect::<Vec<_>>().join("; ")),
    }
}
/// Unified addresses of given receiver shapes (typecodes 0..3 known, others unknown).
fn unified_of(net: NetworkType, tcs: &[u32], r: &mut Rng) -> ZcashAddress {
    let items: Vec<Receiver> = tcs.iter().map(|t| match t {
        0 => Receiver::P2pkh(r.bytes(20).try_into().unwrap()),
        1 => Receiver::P2sh(r.bytes(20).try_into().unwrap()),
        2 => Receiver::Sapling(r.bytes(43).try_into().unwrap()),
        3 => Receiver::Orchard(r.bytes(43).try_into().unwrap()),
        t => { let n = r.range(16, 40) as usize; Receiver::Unknown { typecode: *t, data: r.bytes(n) } }
    }).collect();
    ZcashAddress::from_unified(net, unified::Address::try_from_items(items).expect("valid ZIP 316 composition"))
}
const UA_SHAPES: &[&[u32]] = &[&[0, 0x10], &[1, 0x10, 0xfffe], &[0, 2], &[3, 0x10], &[0, 3, 0x7f], &[2, 3], &[1, 4], &[4, 2]];

// ---- printers ---------------------------------------------------------------------------------
// Byte strings are printed as `(ub len [w; ...]%uint63)`: 7 bytes per primitive-integer literal
// (string / positive literals cost Coq ~50 us per character to elaborate).

fn ub(b: &[u8]) -> String {
    if b.is_empty() { return "[]".into(); }
    let ws: Vec<String> = b.chunks(7).map(|c| { let mut v: u64 = 0; for x in c { v = (v << 8) | *x as u64; } format!("0x{:x}", v) }).collect();
    format!("(ub {} [{}]%uint63)", b.len(), ws.join(";"))
}
fn s_ub(s: &str) -> String { ub(s.as_bytes()) }

/// The address table of one case: canonical addresses (referred to as `(ad c k)`), and aliases
/// (other strings that decode to one of them).
#[derive(Default)]
struct Tbl { canon: Vec<ZcashAddress>, idx: BTreeMap<String, usize>, aliases: BTreeMap<String, usize> }
impl Tbl {
    fn add(&mut self, a: &ZcashAddress) -> usize {
        let e = a.encode();
        if let Some(i) = self.idx.get(&e) { return *i; }
        self.canon.push(a.clone());
        self.idx.insert(e, self.canon.len() - 1);
        self.canon.len() - 1
    }
    fn aref(&mut self, a: &ZcashAddress) -> String { format!("(ad c {}%nat)", self.add(a)) }
    /// Classify every substring of `uri` that the parser could hand to the address decoder
    /// (over-approximated) with the real zcash_address.
    fn add_uri(&mut self, uri: &str) {
        let mut cands: BTreeSet<String> = BTreeSet::new();
        if let Some(rest) = uri.strip_prefix("zcash:") {
            let (lead, query) = match rest.find('?') { Some(i) => (&rest[..i], &rest[i + 1..]), None => (rest, "") };
            cands.insert(lead.to_string());
            for piece in query.split('&') {
                if let Some(i) = piece.find('=') {
                    let val = &piece[i + 1..];
                    cands.insert(val.to_string());
                    cands.insert(val.chars().take_while(|c| is_qchar(*c)).collect());
                }
            }
        }
        for c in cands {
            if c.is_empty() { continue; }
            if let Some(Ok(a)) = catch(|| ZcashAddress::try_from_encoded(&c)) {
                let k = self.add(&a);
                if a.encode() != c { self.aliases.insert(c, k); }
            }
        }
    }
    fn wrap(&self, body: String) -> String {
        format!("let c := {} in let t := mk_tbl c {} in {}",
            list(self.canon.iter().map(|a| format!("(A {} {})", s_ub(&a.encode()), shape_s(a)))),
            list(self.aliases.iter().map(|(k, i)| format!("({}, {}%nat)", s_ub(k), i))), body)
    }
}

fn pay_s(t: &mut Tbl, p: &Payment) -> String {
    format!("(P {} {} {} {} {} {})",
        t.aref(p.recipient_address()),
        opt(p.amount().map(|a| z(a.into_u64() as i128))),
        opt(p.memo().map(|m| ub(m.as_slice()))),
        opt(p.label().map(|s| s_ub(s))),
        opt(p.message().map(|s| s_ub(s))),
        list(p.other_params().iter().map(|(n, v)| pair(s_ub(n), s_ub(v)))))
}
fn pays_s<'a>(t: &mut Tbl, it: impl Iterator<Item = (&'a usize, &'a Payment)>) -> String {
    let v: Vec<String> = it.map(|(i, p)| pair(z(*i as i128), pay_s(t, p))).collect();
    list(v)
}
fn req_s(t: &mut Tbl, r: &TransactionRequest) -> String { pays_s(t, r.payments().iter()) }
fn zerr_s(e: &Zip321Error) -> String {
    match e {
        Zip321Error::ParseError(_) => "(Err EParse)".into(),
        Zip321Error::TooManyPayments(n) => format!("(Err (ETooMany {}))", n),
        Zip321Error::DuplicateParameter(_, i) => format!("(Err (EDup {}))", i),
        Zip321Error::TransparentMemo(i) => format!("(Err (ETransparentMemo {}))", i),
        Zip321Error::ZeroValuedTransparentOutput(i) => format!("(Err (EZeroTransparent {}))", i),
        Zip321Error::RecipientMissing(i) => format!("(Err (ERecipientMissing {}))", i),
        other => panic!("error variant that from_uri/new are not expected to return: {other:?}"),
    }
}
fn rres_s(t: &mut Tbl, r: &Option<Result<TransactionRequest, Zip321Error>>) -> String {
    match r {
        None => PANIC.into(),
        Some(Ok(q)) => ok(req_s(t, q)),
        Some(Err(e)) => zerr_s(e),
    }
}
fn is_qchar(c: char) -> bool { c.is_ascii_alphanumeric() || "-._~!$'()*+,;:@%".contains(c) }

// ---- statistics ---------------------------------------------------------------------------------

#[derive(Default)]
struct Out { n: usize, kinds: BTreeMap<String, usize>, uri_len: BTreeMap<usize, usize>, npay: BTreeMap<usize, usize>, seen: BTreeSet<String> }
impl Out {
    fn c(&mut self, kind: &str, s: String) {
        if !self.seen.insert(s.clone()) { return; }
        *self.kinds.entry(kind.to_string()).or_default() += 1;
        self.n += 1;
        case(s);
    }
}
fn bucket(n: usize) -> usize { if n == 0 { 0 } else { 1usize << (usize::BITS - n.leading_zeros()) } }

// ---- API drivers --------------------------------------------------------------------------------

fn from_uri_case(o: &mut Out, uri: &str) {
    let r = catch(|| TransactionRequest::from_uri(uri));
    *o.uri_len.entry(bucket(uri.len())).or_default() += 1;
    let mut t = Tbl::default();
    t.add_uri(uri);
    let (rer, class) = match &r {
        Some(Ok(q)) => {
            let u = q.to_uri();
            let r2 = catch(|| TransactionRequest::from_uri(&u));
            t.add_uri(&u);
            let us = if u == uri { "u".to_string() } else { s_ub(&u) };
            (format!("(Some ({}, {}))", us, rres_s(&mut t, &r2)), "ok")
        }
        Some(Err(_)) => ("None".to_string(), "err"),
        None => ("None".to_string(), "panic"),
    };
    let body = format!("let u := {} in FromUri t u {} {}", s_ub(uri), rres_s(&mut t, &r), rer);
    o.c(&format!("FromUri/{class}"), t.wrap(body));
}

fn render_case(o: &mut Out, r: &TransactionRequest) -> String {
    let u = r.to_uri();
    let r2 = catch(|| TransactionRequest::from_uri(&u));
    *o.npay.entry(r.payments().len()).or_default() += 1;
    let mut t = Tbl::default();
    let rs = req_s(&mut t, r);
    t.add_uri(&u);
    let class = match &r2 { Some(Ok(q)) if q == r => "roundtrip", Some(Ok(_)) => "differs", Some(Err(_)) => "err", None => "panic" };
    let body = format!("Render t {} {} {}", rs, s_ub(&u), rres_s(&mut t, &r2));
    o.c(&format!("Render/{class}"), t.wrap(body));
    u
}

fn new_case(o: &mut Out, ps: &[Payment]) {
    let r = catch(|| TransactionRequest::new(ps.to_vec()));
    // the table must know every address of `ps` and whatever the rendering contains
    let probe = TransactionRequest::from_indexed(ps.iter().cloned().enumerate().filter(|(i, _)| *i <= 9999).collect()).unwrap();
    let u = probe.to_uri();
    let mut t = Tbl::default();
    let pss = list(ps.iter().map(|p| pay_s(&mut t, p)).collect::<Vec<_>>());
    t.add_uri(&u);
    let class = match &r { Some(Ok(_)) => "ok", Some(Err(_)) => "err", None => "panic" };
    let body = format!("New t {} {}", pss, rres_s(&mut t, &r));
    o.c(&format!("New/{class}"), t.wrap(body));
}

fn total_case(o: &mut Out, r: &TransactionRequest) {
    let tot = catch(|| r.total());
    let s = match tot {
        None => PANIC.into(),
        Some(Ok(v)) => ok(opt(v.map(|a| z(a.into_u64() as i128)))),
        Some(Err(_)) => "(Err tt)".into(),
    };
    let mut t = Tbl::default();
    let body = format!("Total {} {}", req_s(&mut t, r), s);
    o.c("Total", t.wrap(body));
}

#[allow(clippy::too_many_arguments)]
fn pay_new(o: &mut Out, a: &ZcashAddress, amount: Option<Zatoshis>, memo: Option<MemoBytes>, label: Option<String>,
           message: Option<String>, other: Vec<(String, String)>) -> Option<Payment> {
    let r = catch(|| Payment::new(a.clone(), amount, memo.clone(), label.clone(), message.clone(), other.clone()));
    let mut t = Tbl::default();
    let s = match &r {
        None => PANIC.into(),
        Some(Ok(p)) => ok(pay_s(&mut t, p)),
        Some(Err(PaymentError::TransparentMemo)) => "(Err PTransparentMemo)".into(),
        Some(Err(PaymentError::ZeroValuedTransparentOutput)) => "(Err PZeroTransparent)".into(),
    };
    let body = format!("PayNew {} {} {} {} {} {} {}", t.aref(a),
        opt(amount.map(|a| z(a.into_u64() as i128))), opt(memo.as_ref().map(|m| ub(m.as_slice()))),
        opt(label.as_ref().map(|s| s_ub(s))), opt(message.as_ref().map(|s| s_ub(s))),
        list(other.iter().map(|(n, v)| pair(s_ub(n), s_ub(v)))), s);
    // only a sample of the accepted constructions is printed (they are all alike)
    if !matches!(&r, Some(Ok(_))) || o.n % 4 == 0 || a.encode().starts_with('u') { o.c("PayNew", t.wrap(body)); }
    r.and_then(|x| x.ok())
}

fn memo_cases(o: &mut Out, bytes: &[u8]) -> String {
    let m = MemoBytes::from_bytes(bytes).unwrap();
    let s = memo_to_base64(&m);
    o.c("MemoTo", format!("MemoTo {} {}", ub(m.as_slice()), s_ub(&s)));
    memo_from(o, &s);
    s
}
fn memo_from(o: &mut Out, s: &str) {
    let r = catch(|| memo_from_base64(s));
    let out = match r {
        None => PANIC.into(),
        Some(Ok(m)) => ok(ub(m.as_slice())),
        Some(Err(Zip321Error::InvalidBase64(_))) => "(Err InvalidBase64)".into(),
        Some(Err(Zip321Error::MemoBytesError(_))) => "(Err MemoTooLong)".into(),
        Some(Err(e)) => panic!("unexpected memo error {e:?}"),
    };
    o.c("MemoFrom", format!("MemoFrom {} {}", s_ub(s), out));
}

fn amount_parse(o: &mut Out, fixed: &ZcashAddress, s: &str) {
    if s.contains('&') { return; }
    let uri = format!("zcash:{}?amount={}", fixed.encode(), s);
    let r = catch(|| TransactionRequest::from_uri(&uri));
    let out = match r {
        None => return from_uri_case(o, &uri),
        Some(Ok(q)) => q.payments().get(&0).and_then(|p| p.amount()).map(|a| z(a.into_u64() as i128)),
        Some(Err(_)) => None,
    };
    o.c("AmountParse", format!("AmountParse {} {}", s_ub(s), opt(out)));
}
fn amount_render(o: &mut Out, fixed: &ZcashAddress, v: u64) -> String {
    let p = Payment::without_memo(fixed.clone(), Zatoshis::from_u64(v).unwrap());
    let r = TransactionRequest::from_indexed([(0usize, p)].into_iter().collect()).unwrap();
    let u = r.to_uri();
    let pre = format!("zcash:{}?amount=", fixed.encode());
    let s = u.strip_prefix(&pre).expect("amount rendering prefix").to_string();
    o.c("AmountRender", format!("AmountRender {} {}", v, s_ub(&s)));
    s
}

// ---- generators ---------------------------------------------------------------------------------

fn amount_lattice() -> Vec<u64> {
    let mut v = vec![0, 1, 2, 9, 10, 11, 99, 100, 1000, 12345678, 99_999_999, 100_000_000, 100_000_001, 110_000_000,
        123_456_789, 1_000_000_000, 37_687_690_279_628_6, MAX_MONEY - 100_000_000, MAX_MONEY - 1, MAX_MONEY,
        MAX_MONEY / 2, 50_000_000, 10_000_000, 1_230_000_00, 20_999_999_99_999_999];
    let mut p = 1u64;
    while p <= MAX_MONEY { v.push(p); v.push(p * 2 % (MAX_MONEY + 1)); v.push((p * 5) % (MAX_MONEY + 1)); p *= 10; }
    v.sort(); v.dedup(); v
}
fn gen_amount(r: &mut Rng, lat: &[u64]) -> u64 {
    match r.below(4) { 0 => *r.pick(lat), 1 => r.below(MAX_MONEY + 1), 2 => r.below(1000) * 100_000, _ => r.below(100_000_000_000) }
}
const SPECIAL_CHARS: &[char] = &['\u{0}', '\u{1}', '\t', '\n', '\u{1f}', ' ', '!', '"', '#', '$', '%', '&', '\'', '(', ')', '*', '+', ',', '-',
    '.', '/', '0', '9', ':', ';', '<', '=', '>', '?', '@', 'A', 'Z', '[', '\\', ']', '^', '_', '`', 'a', 'z', '{', '|', '}', '~', '\u{7f}',
    '\u{80}', '\u{e9}', '\u{7ff}', '\u{800}', '\u{20ac}', '\u{d7ff}', '\u{e000}', '\u{fffd}', '\u{ffff}', '\u{10000}', '\u{1f984}', '\u{10ffff}'];
fn gen_string(r: &mut Rng) -> String {
    let n = match r.below(6) { 0 => 0, 1 => 1, 2 => r.range(2, 6), _ => r.range(1, 24) } as usize;
    let mut s = String::new();
    for _ in 0..n {
        match r.below(8) {
            0 | 1 => s.push(*r.pick(SPECIAL_CHARS)),
            2 => s.push(char::from(r.below(128) as u8)),
            3 => s.push_str(*r.pick::<&str>(&["%41", "%zz", "%", "%4", "%C3%A9", "%c3", "%FF", "%25", "%26label=x", "+", "%00"])),
            4 => { if let Some(c) = char::from_u32(r.below(0x110000) as u32) { s.push(c) } }
            _ => s.push(char::from(b'a' + r.below(26) as u8)),
        }
    }
    s
}
fn gen_valid_name(r: &mut Rng) -> String {
    let first = b"abcdefghijklmnopqrstuvwxyzABCDEFGHIJKLMNOPQRSTUVWXYZ";
    let rest = b"abcdefghijklmnopqrstuvwxyzABCDEFGHIJKLMNOPQRSTUVWXYZ0123456789+-";
    let mut s = String::new();
    s.push(char::from(*r.pick(first)));
    for _ in 0..r.below(6) { s.push(char::from(*r.pick(rest))); }
    s
}
const ODD_NAMES: &[&str] = &["label", "message", "memo", "amount", "address", "req-x", "req-", "req", "Label", "MEMO", "a.1", "label.2",
    "address.1", "amount.3", "a.0", "a.10000", "a.01", "", "1a", "a b", "a=b", "a&b", "\u{e9}", "a%41", "a.", "+a", "-", "a+", "a-b+c", "re-q", "x.9999"];
fn gen_other(r: &mut Rng) -> Vec<(String, String)> {
    let n = match r.below(8) { 0..=3 => 0, 4 | 5 => 1, 6 => 2, _ => 3 };
    let mut v: Vec<(String, String)> = vec![];
    for _ in 0..n {
        let name = match r.below(10) {
            0 | 1 => r.pick(ODD_NAMES).to_string(),
            2 if !v.is_empty() => v[r.below(v.len() as u64) as usize].0.clone(),
            _ => gen_valid_name(r),
        };
        let val = match r.below(4) { 0 => r.pick(&["1", "1.5", "x", "VGhpcw", ""]).to_string(), _ => gen_string(r) };
        v.push((name, val));
    }
    v
}
fn gen_memo(r: &mut Rng) -> Vec<u8> {
    let n = match r.below(8) { 0 => 0, 1 => 1, 2 => 2, 3 => 3, 4 => 512, 5 => 511, 6 => r.range(4, 40), _ => r.range(0, 512) } as usize;
    let mut b = r.bytes(n);
    match r.below(5) {
        0 => { let k = r.below(n as u64 + 1) as usize; for x in b[n - k..].iter_mut() { *x = 0; } }
        1 => { for x in b.iter_mut() { *x = 0; } }
        2 if n > 0 => { b[0] = 0xF6; }
        _ => {}
    }
    b
}
fn gen_index(r: &mut Rng) -> usize {
    match r.below(4) {
        0 => 0,
        1 => *r.pick(&[1usize, 2, 9, 10, 11, 99, 100, 101, 999, 1000, 1001, 9998, 9999]),
        2 => r.below(12) as usize,
        _ => r.below(10000) as usize,
    }
}

struct Gen { pool: Vec<ZcashAddress>, lat: Vec<u64> }

impl Gen {
    fn payment(&self, o: &mut Out, r: &mut Rng) -> Payment {
        loop {
            let a = r.pick(&self.pool).clone();
            let amount = if r.chance(1, 6) { None } else { Some(Zatoshis::from_u64(if r.chance(1, 8) { 0 } else { gen_amount(r, &self.lat) }).unwrap()) };
            let memo = if r.chance(1, 3) { Some(MemoBytes::from_bytes(&gen_memo(r)).unwrap()) } else { None };
            let label = if r.chance(1, 3) { Some(gen_string(r)) } else { None };
            let message = if r.chance(1, 3) { Some(gen_string(r)) } else { None };
            let other = gen_other(r);
            // a zero-valued transparent payment can only be built through `without_memo`
            if r.chance(1, 40) && a.is_transparent_only() { return Payment::without_memo(a, Zatoshis::ZERO); }
            if let Some(p) = pay_new(o, &a, amount, memo, label, message, other) { return p; }
        }
    }
    fn request(&self, o: &mut Out, r: &mut Rng) -> TransactionRequest {
        let n = match r.below(10) { 0 => 0, 1..=4 => 1, 5 | 6 => 2, 7 => 3, _ => r.range(2, 6) };
        let mut m = BTreeMap::new();
        for _ in 0..n { m.insert(gen_index(r), self.payment(o, r)); }
        TransactionRequest::from_indexed(m).unwrap()
    }
}

const MUT_CHARS: &[char] = &['&', '=', '?', '.', '%', '#', '+', '-', '0', '1', '9', 'a', 'A', ' ', '\u{e9}', ':', '/', '_', '~', 'z'];
fn mutate_chars(r: &mut Rng, s: &str) -> String {
    let mut v: Vec<char> = s.chars().collect();
    for _ in 0..r.range(1, 2) {
        let pos = r.below(v.len() as u64 + 1) as usize;
        match r.below(4) {
            0 if pos < v.len() => { v.remove(pos); }
            1 if pos < v.len() => { v[pos] = *r.pick(MUT_CHARS); }
            2 if pos < v.len() => { let c = v[pos]; v[pos] = if c.is_ascii_lowercase() { c.to_ascii_uppercase() } else { c.to_ascii_lowercase() }; }
            _ => { v.insert(pos.min(v.len()), *r.pick(MUT_CHARS)); }
        }
    }
    v.into_iter().collect()
}
const BAD_AMOUNTS: &[&str] = &["1.", ".5", "1.000000000", "21000000.00000001", "21000000.00000000", "21000001", "18446744073709551616",
    "18446744073709551615", "184467440737.09551616", "0.00000001", "00.1", "-1", "+1", "1e3", "1,5", "", "0", "0.0", "1.5%30", "1%2E5", " 1",
    "0000000000000000000000001", "20999999.99999999", "99999999999999999999999", "0.123456789", "1..2", "1.2.3", "\u{661}"];
const BAD_VALUES: &[&str] = &["%", "%4", "%zz", "%C3%28", "%FF", "%C3", "%E2%82", "%ED%A0%80", "%F4%90%80%80", "%C0%80", "%41", "a%00b", "%e2%82%ac", "x#y", "a b", "a/b", "\u{e9}"];
const BAD_MEMOS: &[&str] = &["A", "AAAAA", "AB", "AQ", "AAB", "AAA", "AAE", "A=", "AA==", "AA=", "A+", "A/", "A_-9", "####", "VGhpcw=="];
const INDEX_SUFFIXES: &[&str] = &["", ".0", ".1", ".01", ".9", ".10", ".9999", ".10000", ".99999", ".1a", ".", ".-1", ".+1", ".1.2", ".0001"];

fn split_uri(u: &str) -> (String, Vec<String>) {
    match u.find('?') {
        Some(i) => (u[..i].to_string(), if u[i + 1..].is_empty() { vec![] } else { u[i + 1..].split('&').map(|s| s.to_string()).collect() }),
        None => (u.to_string(), vec![]),
    }
}
fn join_uri(head: &str, ps: &[String]) -> String { if ps.is_empty() { head.to_string() } else { format!("{}?{}", head, ps.join("&")) } }

/// Grammar-level mutations of a rendered URI.
fn mutate_uri(g: &Gen, r: &mut Rng, u: &str) -> String {
    let (mut head, mut ps) = split_uri(u);
    let taddr = g.pool.iter().find(|a| a.is_transparent_only()).unwrap().encode();
    let zaddr = g.pool.iter().find(|a| a.can_receive_memo()).unwrap().encode();
    let k = if ps.is_empty() { 0 } else { r.below(ps.len() as u64) as usize };
    match r.below(24) {
        0 if !ps.is_empty() => { let p = ps[k].clone(); let at = r.below(ps.len() as u64 + 1) as usize; ps.insert(at, p); }     // duplicate a parameter
        1 if ps.len() > 1 => { let j = r.below(ps.len() as u64) as usize; ps.swap(k, j); }                                   // reorder
        2 if !ps.is_empty() => { ps.remove(k); }                                                                             // drop (maybe the address)
        3 if !ps.is_empty() => {                                                                                             // change an index suffix
            if let Some(e) = ps[k].find('=') {
                let name_end = ps[k][..e].find('.').unwrap_or(e);
                ps[k] = format!("{}{}{}", &ps[k][..name_end], r.pick(INDEX_SUFFIXES), &ps[k][e..]);
            }
        }
        4 => { ps.push(format!("req-{}={}", gen_valid_name(r), "1")); }
        5 => { let at = r.below(ps.len() as u64 + 1) as usize; ps.insert(at, String::new()); }                                 // empty parameter / trailing '&'
        6 => { head = mutate_chars(r, &head); }
        7 => { head = head.replacen("zcash:", *r.pick::<&str>(&["ZCASH:", "zcash", "zcash::", "Zcash:", "bitcoin:", "", " zcash:"]), 1); }
        8 => { ps.push(format!("amount{}={}", r.pick(INDEX_SUFFIXES), r.pick(BAD_AMOUNTS))); }
        9 if !ps.is_empty() => { if let Some(e) = ps[k].find('=') { ps[k] = format!("{}={}", &ps[k][..e], r.pick(BAD_AMOUNTS)); } }
        10 => { ps.push(format!("{}{}={}", r.pick(&["label", "message", "x", "memo"]), r.pick(INDEX_SUFFIXES), r.pick(BAD_VALUES))); }
        11 => { ps.push(format!("memo{}={}", r.pick(INDEX_SUFFIXES), r.pick(BAD_MEMOS))); }
        12 => { ps.push(format!("address{}={}", r.pick(INDEX_SUFFIXES), if r.bool() { &taddr } else { &zaddr })); }
        13 => { ps.push(format!("memo={}", "VGhpcw")); ps.insert(0, format!("address={}", taddr)); }
        14 => { ps.push("amount=0".into()); if r.bool() { ps.insert(0, format!("address={}", taddr)); } }
        15 => { head = format!("zcash:{}", if r.bool() { taddr.clone() } else { zaddr.to_uppercase() }); }
        16 if !ps.is_empty() => { ps[k] = mutate_chars(r, &ps[k]); }
        17 if !ps.is_empty() => { ps[k] = ps[k].replacen('=', *r.pick::<&str>(&["", "==", "=%", ".=", "=&", "= "]), 1); }
        18 => { ps.push(format!("{}={}", r.pick(ODD_NAMES), gen_valid_name(r))); }
        19 => { let big = "A".repeat(684 + r.below(3) as usize); ps.push(format!("memo={}", big)); }
        20 if !ps.is_empty() => { if let Some(e) = ps[k].find('=') { ps[k] = format!("{}{}", ps[k][..e].to_uppercase(), &ps[k][e..]); } }
        21 if !ps.is_empty() => {
            // the address parameter moves behind the other parameters (the renderer always puts it first)
            if let Some(pos) = ps.iter().position(|p| p.starts_with("address")) {
                let a = ps.remove(pos);
                if r.bool() { ps.push(a); } else { let at = r.range(pos as u64, ps.len() as u64) as usize; ps.insert(at, a); }
                if r.bool() { ps.insert(0, "amount=0".into()); }
            } else if let Some(lead) = head.strip_prefix("zcash:").map(|x| x.to_string()) {
                if !lead.is_empty() { head = "zcash:".into(); ps.push(format!("address={}", lead)); }
            }
        }
        _ => { return mutate_chars(r, u); }
    }
    join_uri(&head, &ps)
}


/// All orderings of a list (Heap's algorithm, small n).
fn permutations<T: Clone>(xs: &[T]) -> Vec<Vec<T>> {
    if xs.len() <= 1 { return vec![xs.to_vec()]; }
    let mut out = vec![];
    for i in 0..xs.len() {
        let mut rest = xs.to_vec();
        let x = rest.remove(i);
        for mut p in permutations(&rest) { p.insert(0, x.clone()); out.push(p); }
    }
    out
}

/// Every ordering of one payment's parameters (address last, amount / memo before the address, ...)
/// for transparent, Sapling and unified recipients, at index 0 and at later indices, with zero and
/// non-zero amounts, with and without a memo; alone and next to a second, ordinary payment.
fn ordering_cases(o: &mut Out, g: &Gen, full: bool) {
    let mut recips: Vec<ZcashAddress> = vec![];
    let pick = |f: &dyn Fn(&ZcashAddress) -> bool| g.pool.iter().filter(|a| f(a)).min_by_key(|a| a.encode().len()).cloned();
    for f in [
        &(|a: &ZcashAddress| a.is_transparent_only() && !a.encode().starts_with('u') && !a.encode().starts_with("tex")) as &dyn Fn(&ZcashAddress) -> bool,
        &|a: &ZcashAddress| a.encode().starts_with("tex"),
        &|a: &ZcashAddress| a.encode().starts_with('z') && a.can_receive_memo() && a.encode().contains("sapling") || a.encode().starts_with("zs"),
        &|a: &ZcashAddress| a.encode().starts_with('u') && a.can_receive_memo(),
        &|a: &ZcashAddress| a.encode().starts_with('u') && a.is_transparent_only(),
    ] { if let Some(a) = pick(f) { recips.push(a); } }
    let other = g.pool.iter().find(|a| a.can_receive_memo()).unwrap().encode();
    for a in &recips {
        let enc = a.encode();
        for idx in (if full { vec![0usize, 1, 7, 9999] } else { vec![0usize, 7] }) {
            let sfx = if idx == 0 { String::new() } else { format!(".{idx}") };
            for amount in (if full { vec!["0", "0.00000000", "1.5"] } else { vec!["0", "1.5"] }) {
                for with_memo in [false, true] {
                    let mut ps = vec![format!("address{sfx}={enc}"), format!("amount{sfx}={amount}"), format!("label{sfx}=x")];
                    if with_memo { ps.push(format!("memo{sfx}=VGhpcw")); }
                    for perm in permutations(&ps) {
                        // only orderings that differ from the renderer's (address first) are new
                        from_uri_case(o, &format!("zcash:?{}", perm.join("&")));
                        if perm[0].starts_with("address") || !(full || perm[perm.len() - 1].starts_with("address")) { continue; }
                        // next to a second payment, before and after it
                        let second = if idx == 0 { format!("address.3={other}&amount.3=2") } else { format!("address={other}&amount=2") };
                        from_uri_case(o, &format!("zcash:?{}&{}", second, perm.join("&")));
                        from_uri_case(o, &format!("zcash:?{}&{}&{}", perm[0], second, perm[1..].join("&")));
                    }
                    if idx == 0 {
                        // lead-address form: the remaining parameters in every order
                        for perm in permutations(&ps[1..]) { from_uri_case(o, &format!("zcash:{}?{}", enc, perm.join("&"))); }
                    }
                }
            }
        }
    }
}

/// Long malformed URIs with raw (unencoded) multi-byte UTF-8 text, placed so that every byte offset
/// around 96 of every possible "unparsed remainder" (whole URI, after the scheme, after '?', after a
/// value's last qchar, after '&') falls inside characters of width 2, 3 and 4. Expected: Err, never a panic.
fn long_non_ascii_cases(o: &mut Out, g: &Gen, full: bool) {
    let valid = g.pool.iter().filter(|a| a.can_receive_memo()).min_by_key(|a| a.encode().len()).unwrap().encode();
    let chars: [&str; 6] = ["\u{436}", "\u{e9}", "\u{4e2d}", "\u{20ac}", "\u{1f984}", "\u{10ffff}"];
    let mixed = "\u{436}\u{4e2d}\u{1f984}";
    let mut texts: Vec<String> = vec![];
    for (i, c) in chars.iter().enumerate() { if full || i % 2 == 0 { texts.push(c.repeat(130 / c.len() + 40)); } }
    texts.push(mixed.repeat(30));
    texts.push(format!("{}{}", "\u{1f984}".repeat(23), "\u{e9}".repeat(40)));
    for t in &texts {
        for s in 0..(if full { 5usize } else { 4 }) {
            for pad in (if full { vec!["#", " ", "a", "="] } else { vec!["#", "a"] }) {
                let padded = format!("{}{}", pad.repeat(s), t);
                // lead-address position (error input: the whole URI), also without / with a wrong scheme
                from_uri_case(o, &format!("zcash:{padded}"));
                from_uri_case(o, &format!("zcash:{padded}?amount=1"));
                from_uri_case(o, &format!("zcas{padded}"));
                // each parameter position: value of the first / a later parameter, name, address value, index
                from_uri_case(o, &format!("zcash:{valid}?message={padded}"));
                from_uri_case(o, &format!("zcash:{valid}?amount=1&message=ok{padded}&label=z"));
                from_uri_case(o, &format!("zcash:{valid}?amount=1&{padded}=1"));
                from_uri_case(o, &format!("zcash:?address={padded}&amount=1"));
                from_uri_case(o, &format!("zcash:?address={valid}{padded}"));
                from_uri_case(o, &format!("zcash:{valid}?amount=1{padded}"));
                from_uri_case(o, &format!("zcash:{valid}?memo=VGhpcw{padded}"));
                from_uri_case(o, &format!("zcash:{valid}?label.{padded}=1"));
                from_uri_case(o, &format!("zcash:{valid}?{padded}"));
            }
        }
    }
    // offsets 88..=100 of ASCII before the first multi-byte character, for the remainders that keep ASCII text
    for k in 84..=101usize {
        for c in ["\u{436}", "\u{4e2d}", "\u{1f984}"] {
            let body = format!("{}{}{}", "b".repeat(k), c, "c".repeat(12));
            from_uri_case(o, &format!("zcash:{body}"));
            from_uri_case(o, &format!("{body}"));
            from_uri_case(o, &format!("zcash:{valid}?{}#{body}", "amount=1"));
            from_uri_case(o, &format!("zcash:{valid}?&{body}"));
            from_uri_case(o, &format!("zcash:?{body}"));
        }
    }
}

/// Zero / non-zero amounts and memos for unified recipients of every receiver shape: Payment::new,
/// from_uri (lead address, unindexed and indexed parameters, amount before and after the address)
/// and TransactionRequest::new.
fn flag_cases(o: &mut Out, special: &[ZcashAddress], r: &mut Rng) {
    for a in special {
        let enc = a.encode();
        for amount in [0u64, 1, 100_000_000] {
            let z = Zatoshis::from_u64(amount).unwrap();
            for with_memo in [false, true] {
                let memo = if with_memo { Some(MemoBytes::from_bytes(&r.bytes(5)).unwrap()) } else { None };
                if let Some(p) = pay_new(o, a, Some(z), memo.clone(), None, None, vec![]) {
                    new_case(o, &[p.clone()]);
                    new_case(o, &[Payment::without_memo(a.clone(), Zatoshis::from_u64(7).unwrap()), p.clone()]);
                    let rq = TransactionRequest::from_indexed([(0usize, p.clone())].into_iter().collect()).unwrap();
                    render_case(o, &rq);
                    let rq = TransactionRequest::from_indexed([(5usize, p)].into_iter().collect()).unwrap();
                    render_case(o, &rq);
                }
                let am = if amount == 0 { "0".to_string() } else if amount == 1 { "0.00000001".to_string() } else { "1".to_string() };
                let m = if with_memo { "&memo=VGhpcw" } else { "" };
                from_uri_case(o, &format!("zcash:{enc}?amount={am}{m}"));
                from_uri_case(o, &format!("zcash:?address={enc}&amount={am}{m}"));
                from_uri_case(o, &format!("zcash:?amount={am}{m}&address={enc}"));
                let m3 = if with_memo { "&memo.3=VGhpcw" } else { "" };
                from_uri_case(o, &format!("zcash:?address.3={enc}&amount.3={am}{m3}"));
                from_uri_case(o, &format!("zcash:?amount.3={am}&address.3={enc}{m3}"));
            }
            // without_memo bypasses Payment::new: new / from_indexed + render must still judge it
            let p = Payment::without_memo(a.clone(), z);
            new_case(o, &[p.clone()]);
            let rq = TransactionRequest::from_indexed([(0usize, p)].into_iter().collect()).unwrap();
            render_case(o, &rq);
        }
    }
}

/// Well-formed strings of the address encodings that are not Zcash addresses: Base58Check with a valid
/// checksum and a payload of 0, 1, 2, 3, 21, 22 (unknown / known prefix, wrong length), 69 bytes; Bech32 and
/// Bech32m with foreign or Zcash HRPs and empty / short / wrong-length data. In lead-address position, as
/// `address=` and as `address.N=`. Expected: the address does not parse -> Err, never a panic.
fn foreign_address_cases(o: &mut Out, g: &Gen, r: &mut Rng) {
    use bech32::{Bech32, Bech32m, Hrp};
    let valid = g.pool.iter().filter(|a| a.can_receive_memo()).min_by_key(|a| a.encode().len()).unwrap().encode();
    let mut strs: Vec<String> = vec!["3QJmnh".into(), "4CyUtqx".into(), "1Wh4bh".into()];
    for n in [0usize, 1, 2, 3, 21, 22, 23, 66, 69] {
        for k in 0..3 {
            let mut payload = r.bytes(n);
            // known two-byte prefixes with a body of the wrong length; leading zero bytes
            if k == 1 && n >= 2 { payload[0] = 0x1c; payload[1] = *r.pick(&[0xb8u8, 0xbd, 0xba]); }
            if k == 2 && n >= 1 { payload[0] = 0; }
            strs.push(bs58::encode(&payload).with_check().into_string());
        }
    }
    for hrp in ["bc", "tb", "zs", "ztestsapling", "u", "utest", "tex", "textest", "zcash", "a", "uview"] {
        for n in [0usize, 1, 20, 43] {
            let data = r.bytes(n);
            let h = Hrp::parse(hrp).unwrap();
            if let Ok(e) = bech32::encode::<Bech32>(h, &data) { strs.push(e); }
            if let Ok(e) = bech32::encode::<Bech32m>(h, &data) { strs.push(e.clone()); if n == 1 { strs.push(e.to_uppercase()); } }
        }
    }
    for s in &strs {
        from_uri_case(o, &format!("zcash:{s}"));
        from_uri_case(o, &format!("zcash:{s}?amount=1"));
        from_uri_case(o, &format!("zcash:?address={s}&amount=1"));
        from_uri_case(o, &format!("zcash:?address={valid}&amount=1&address.1={s}"));
        from_uri_case(o, &format!("zcash:{valid}?amount=1&address.7={s}&amount.7=2"));
    }
}

fn hand_written() -> Vec<&'static str> {
    vec![
        "zcash:", "zcash:?", "", "zcash", "zcash:??", "zcash:?&", "zcash:#", "zcash:?amount=1",
        "zcash:ztestsapling10yy2ex5dcqkclhc7z7yrnjq2z6feyjad56ptwlfgmy77dmaqqrl9gyhprdx59qgmsnyfska2kez?amount=1&memo=VGhpcyBpcyBhIHNpbXBsZSBtZW1vLg&message=Thank%20you%20for%20your%20purchase",
        "zcash:?address=tmEZhbWHTpdKMw5it8YDspUXSMGQyFwovpU&amount=123.456&address.1=ztestsapling10yy2ex5dcqkclhc7z7yrnjq2z6feyjad56ptwlfgmy77dmaqqrl9gyhprdx59qgmsnyfska2kez&amount.1=0.789&memo.1=VGhpcyBpcyBhIHVuaWNvZGUgbWVtbyDinKjwn6aE8J-PhvCfjok",
        "zcash:ztestsapling10yy2ex5dcqkclhc7z7yrnjq2z6feyjad56ptwlfgmy77dmaqqrl9gyhprdx59qgmsnyfska2kez?amount=20999999.99999999",
        "zcash:ztestsapling10yy2ex5dcqkclhc7z7yrnjq2z6feyjad56ptwlfgmy77dmaqqrl9gyhprdx59qgmsnyfska2kez?amount=21000000",
        "zcash:zregtestsapling1qqqqqqqqqqqqqqqqqqcguyvaw2vjk4sdyeg0lc970u659lvhqq7t0np6hlup5lusxle7505hlz3?amount=1&memo=VGhpcyBpcyBhIHNpbXBsZSBtZW1vLg&message=Thank%20you%20for%20your%20purchase",
        "zcash:?amount=3491405.05201255&address.1=ztestsapling10yy2ex5dcqkclhc7z7yrnjq2z6feyjad56ptwlfgmy77dmaqqrl9gyhprdx59qgmsnyfska2kez&amount.1=5740296.87793245",
        "zcash:?address=tmEZhbWHTpdKMw5it8YDspUXSMGQyFwovpU&amount=1&amount.1=2&address.2=ztestsapling10yy2ex5dcqkclhc7z7yrnjq2z6feyjad56ptwlfgmy77dmaqqrl9gyhprdx59qgmsnyfska2kez",
        "zcash:?address.0=ztestsapling10yy2ex5dcqkclhc7z7yrnjq2z6feyjad56ptwlfgmy77dmaqqrl9gyhprdx59qgmsnyfska2kez&amount.0=2",
        "zcash:?amount=1.234&amount=2.345&address=tmEZhbWHTpdKMw5it8YDspUXSMGQyFwovpU",
        "zcash:?amount.1=1.234&amount.1=2.345&address.1=tmEZhbWHTpdKMw5it8YDspUXSMGQyFwovpU",
        "zcash:?address=tmEZhbWHTpdKMw5it8YDspUXSMGQyFwovpU&amount=123.456&memo=eyAia2V5IjogIlRoaXMgaXMgYSBKU09OLXN0cnVjdHVyZWQgbWVtby4iIH0&address.1=ztestsapling10yy2ex5dcqkclhc7z7yrnjq2z6feyjad56ptwlfgmy77dmaqqrl9gyhprdx59qgmsnyfska2kez&amount.1=0.789&memo.1=VGhpcyBpcyBhIHVuaWNvZGUgbWVtbyDinKjwn6aE8J-PhvCfjok",
        "zcash:ztestsapling10yy2ex5dcqkclhc7z7yrnjq2z6feyjad56ptwlfgmy77dmaqqrl9gyhprdx59qgmsnyfska2kez?amount=9223372036854775808",
        "zcash:ztestsapling10yy2ex5dcqkclhc7z7yrnjq2z6feyjad56ptwlfgmy77dmaqqrl9gyhprdx59qgmsnyfska2kez?amount=18446744073709551624",
        "zcash:ztestsapling10yy2ex5dcqkclhc7z7yrnjq2z6feyjad56ptwlfgmy77dmaqqrl9gyhprdx59qgmsnyfska2kez?amount=21000000.00000001",
        "zcash:ztestsapling10yy2ex5dcqkclhc7z7yrnjq2z6feyjad56ptwlfgmy77dmaqqrl9gyhprdx59qgmsnyfska2kez?amount=-1",
        "zcash:?amount.10000=1.23&address.10000=tmEZhbWHTpdKMw5it8YDspUXSMGQyFwovpU",
        "zcash:?amount.9999=1.23&address.9999=tmEZhbWHTpdKMw5it8YDspUXSMGQyFwovpU",
        "zcash:?address=tmEZhbWHTpdKMw5it8YDspUXSMGQyFwovpU&amount=123.",
        "zcash:?address=tmEZhbWHTpdKMw5it8YDspUXSMGQyFwovpU&amount=123.45&req-unknown=x",
        "zcash:tmEZhbWHTpdKMw5it8YDspUXSMGQyFwovpU?address=tmEZhbWHTpdKMw5it8YDspUXSMGQyFwovpU",
        "zcash:tmEZhbWHTpdKMw5it8YDspUXSMGQyFwovpU?amount=0",
        "zcash:tmEZhbWHTpdKMw5it8YDspUXSMGQyFwovpU?amount=0.00000000",
        "zcash:tmEZhbWHTpdKMw5it8YDspUXSMGQyFwovpU?memo=AA",
        "zcash:tmEZhbWHTpdKMw5it8YDspUXSMGQyFwovpU?label=a&label=b",
        "zcash:tmEZhbWHTpdKMw5it8YDspUXSMGQyFwovpU?x=a&x=b",
        "zcash:tmEZhbWHTpdKMw5it8YDspUXSMGQyFwovpU?x=a&X=b&x.1=c&address.1=tmEZhbWHTpdKMw5it8YDspUXSMGQyFwovpU",
        "zcash:tmEZhbWHTpdKMw5it8YDspUXSMGQyFwovpU?amount=1#frag",
        "zcash:tmEZhbWHTpdKMw5it8YDspUXSMGQyFwovpU?amount=1&",
        "zcash:tmEZhbWHTpdKMw5it8YDspUXSMGQyFwovpU?",
        "zcash:tmEZhbWHTpdKMw5it8YDspUXSMGQyFwovpU?label=%F0%9F%A6%84&message=%e2%82%ac%20",
        "zcash:tmEZhbWHTpdKMw5it8YDspUXSMGQyFwovpU?label=%C3%28",
        "zcash:TMEZHBWHTPDKMW5IT8YDSPUXSMGQYFWOVPU",
        "zcash:ZTESTSAPLING10YY2EX5DCQKCLHC7Z7YRNJQ2Z6FEYJAD56PTWLFGMY77DMAQQRL9GYHPRDX59QGMSNYFSKA2KEZ?amount=1",
    ]
}

fn main() {
    let a = args();
    if std::env::var_os("C12_LOUD").is_none() { quiet_panics(); }
    let mut r = Rng::new(a.seed, 12);
    let mut o = Out::default();
    let n_req = a.budget(350, 5_000);
    let n_prop = a.budget(40, 500);
    let n_amt = a.budget(150, 6_000);
    let n_memo = a.budget(60, 600);
    let n_rand = a.budget(100, 1_500);

    // address pool: every kind on every network, from the crate's own strategy driven by our PRNG
    let seed: [u8; 32] = r.bytes(32).try_into().unwrap();
    let mut runner = TestRunner::new_with_rng(Config::default(), TestRng::from_seed(RngAlgorithm::ChaCha, &seed));
    let mut pool: Vec<ZcashAddress> = vec![];
    for net in [NetworkType::Main, NetworkType::Test, NetworkType::Regtest] {
        let mut kinds: BTreeSet<String> = BTreeSet::new();
        let mut tries = 0;
        while (kinds.len() < 6 || tries < 10) && tries < 400 {
            let ad = arb_address(net).new_tree(&mut runner).unwrap().current();
            let e = ad.encode();
            let kind: String = if e.starts_with('t') && !e.starts_with("tex") { e.chars().take(2).collect() } else { e.chars().take_while(|c| *c != '1').collect() };
            if kinds.insert(kind) || tries < 10 { pool.push(ad); }
            tries += 1;
        }
    }
    // unified addresses of every receiver shape that matters for the two predicates, on every network
    let mut special: Vec<ZcashAddress> = vec![];
    for net in [NetworkType::Main, NetworkType::Test, NetworkType::Regtest] {
        let k = if net == NetworkType::Main || a.thorough() || a.search { UA_SHAPES.len() } else { 4 };
        for tcs in &UA_SHAPES[..k] { let ua = unified_of(net, tcs, &mut r); special.push(ua.clone()); pool.push(ua); }
    }
    // the two predicates of the real zcash_address against the model's, for every pooled address
    for ad in &pool {
        o.c("AddrFlags", format!("AddrFlags {} {} {}", shape_s(ad), boolc(ad.can_receive_memo()), boolc(ad.is_transparent_only())));
    }
    let g = Gen { pool, lat: amount_lattice() };
    flag_cases(&mut o, &special, &mut r);
    let fixed = g.pool.iter().find(|a| a.can_receive_memo() && !a.is_transparent_only()).unwrap().clone();

    // --- amounts: exhaustive lattice, random, malformed -------------------------------------------
    let mut amt_strs: Vec<String> = vec![];
    for v in g.lat.clone() { amt_strs.push(amount_render(&mut o, &fixed, v)); }
    for _ in 0..n_amt { let v = gen_amount(&mut r, &g.lat); amt_strs.push(amount_render(&mut o, &fixed, v)); }
    for s in BAD_AMOUNTS { amount_parse(&mut o, &fixed, s); }
    for s in &amt_strs {
        amount_parse(&mut o, &fixed, s);
        if r.chance(1, 2) { let m = mutate_chars(&mut r, s); amount_parse(&mut o, &fixed, &m); }
        if r.chance(1, 4) { amount_parse(&mut o, &fixed, &format!("{}0", s)); amount_parse(&mut o, &fixed, &format!("0{}", s)); }
        if r.chance(1, 4) && !s.contains('.') { amount_parse(&mut o, &fixed, &format!("{}.{}", s, "0".repeat(r.range(0, 9) as usize))); }
    }
    // every number of fractional digits 0..=9 with every last digit
    for k in 0..=9usize { for d in 0..10 { amount_parse(&mut o, &fixed, &format!("7.{}{}", "0".repeat(k), d)); } }

    // --- memos: every length class, malformed base64 ------------------------------------------------
    for n in (0..=8).chain([63, 64, 65, 255, 256, 510, 511, 512]) { let b = r.bytes(n); memo_cases(&mut o, &b); memo_cases(&mut o, &vec![0u8; n]); }
    for _ in 0..n_memo {
        let b = gen_memo(&mut r);
        let s = memo_cases(&mut o, &b);
        let m = mutate_chars(&mut r, &s);
        memo_from(&mut o, &m);
    }
    for s in BAD_MEMOS { memo_from(&mut o, s); }
    for n in [683, 684, 685, 686, 687, 688] { memo_from(&mut o, &"A".repeat(n)); memo_from(&mut o, &"_".repeat(n)); }

    // --- hand-written URIs (ZIP 321 examples and boundary shapes) ------------------------------------
    for u in hand_written() { from_uri_case(&mut o, u); }
    foreign_address_cases(&mut o, &g, &mut r);
    ordering_cases(&mut o, &g, a.thorough() || a.search);
    long_non_ascii_cases(&mut o, &g, a.thorough() || a.search);

    // --- the known defect class: other_params that collide with reserved / indexed names -------------
    {
        let one = Zatoshis::from_u64(100_000_000).unwrap();
        for name in ODD_NAMES {
            for (amount, value) in [(Some(one), "x"), (None, "1.5"), (None, "VGhpcw")] {
                if let Some(p) = pay_new(&mut o, &fixed, amount, None, None, None, vec![(name.to_string(), value.to_string())]) {
                    new_case(&mut o, &[p.clone()]);
                    new_case(&mut o, &[p.clone(), Payment::without_memo(fixed.clone(), one)]);
                    let rq = TransactionRequest::from_indexed([(0usize, p.clone())].into_iter().collect()).unwrap();
                    render_case(&mut o, &rq);
                    let rq = TransactionRequest::from_indexed([(0usize, p.clone()), (1usize, Payment::without_memo(fixed.clone(), one))].into_iter().collect()).unwrap();
                    render_case(&mut o, &rq);
                }
            }
        }
        new_case(&mut o, &[]);
    }

    // --- generated requests: render, round trip, new, total, from_indexed; mutated URIs ---------------
    let mut uris: Vec<String> = vec![];
    for i in 0..n_req {
        let rq = g.request(&mut o, &mut r);
        let u = render_case(&mut o, &rq);
        from_uri_case(&mut o, &u);
        total_case(&mut o, &rq);
        if i % 3 == 0 {
            let ps: Vec<Payment> = rq.payments().values().cloned().collect();
            new_case(&mut o, &ps);
        }
        if i % 5 == 0 {
            let mut m: BTreeMap<usize, Payment> = rq.payments().clone();
            if r.bool() { m.insert(*r.pick(&[10000usize, 10001, 65536, usize::MAX]), Payment::without_memo(fixed.clone(), Zatoshis::ZERO)); }
            if r.chance(1, 3) { m.insert(123456, Payment::without_memo(fixed.clone(), Zatoshis::ZERO)); }
            let res = catch(|| TransactionRequest::from_indexed(m.clone()));
            let mut t = Tbl::default();
            let inp = pays_s(&mut t, m.iter());
            let body = format!("FromIndexed {} {}", inp, rres_s(&mut t, &res));
            o.c("FromIndexed", t.wrap(body));
        }
        for _ in 0..2 {
            let m = mutate_uri(&g, &mut r, &u);
            from_uri_case(&mut o, &m);
        }
        uris.push(u);
    }
    // totals that overflow
    {
        let big = Payment::without_memo(fixed.clone(), Zatoshis::from_u64(MAX_MONEY).unwrap());
        let half = Payment::without_memo(fixed.clone(), Zatoshis::from_u64(MAX_MONEY / 2).unwrap());
        let none = Payment::new(fixed.clone(), None, None, None, None, vec![]).unwrap();
        let one = Payment::without_memo(fixed.clone(), Zatoshis::from_u64(1).unwrap());
        for v in [vec![&big, &one], vec![&half, &half], vec![&half, &half, &one], vec![&none, &big, &big], vec![&big, &big, &none], vec![&big, &none, &big], vec![&one, &none]] {
            let m: BTreeMap<usize, Payment> = v.into_iter().cloned().enumerate().map(|(i, p)| (i * 7, p)).collect();
            total_case(&mut o, &TransactionRequest::from_indexed(m).unwrap());
        }
    }
    // the crate's own request strategy
    for i in 0..n_prop {
        let net = [NetworkType::Main, NetworkType::Test, NetworkType::Regtest][i % 3];
        let rq = arb_zip321_request(net).new_tree(&mut runner).unwrap().current();
        let u = render_case(&mut o, &rq);
        from_uri_case(&mut o, &u);
        let m = mutate_uri(&g, &mut r, &u);
        from_uri_case(&mut o, &m);
    }
    // random short strings over the URI alphabet
    for _ in 0..n_rand {
        let n = r.below(24) as usize;
        let mut s = String::from(*r.pick(&["zcash:", "zcash:?", "zcash:?a=", ""]));
        for _ in 0..n { s.push(*r.pick(MUT_CHARS)); }
        from_uri_case(&mut o, &s);
    }
    // TooManyPayments: 10000 minimal payments (thorough / search only; the term is large)
    if a.thorough() || a.search {
        let t = g.pool.iter().filter(|a| a.is_transparent_only()).min_by_key(|a| a.encode().len()).unwrap().clone();
        let ps: Vec<Payment> = (0..10000).map(|_| Payment::without_memo(t.clone(), Zatoshis::from_u64(1).unwrap())).collect();
        new_case(&mut o, &ps);
    }

    fn jmap<K: std::fmt::Display>(m: &BTreeMap<K, usize>) -> String {
        format!("{{{}}}", m.iter().map(|(k, v)| format!("\"{}\":{}", k, v)).collect::<Vec<_>>().join(","))
    }
    stat(format!("{{\"cases\":{},\"kinds\":{},\"uri_len_pow2_buckets\":{},\"payments_per_request\":{},\"address_pool\":{},\"pool_memo_capable\":{},\"pool_transparent_only\":{}}}",
        o.n, jmap(&o.kinds), jmap(&o.uri_len), jmap(&o.npay), g.pool.len(),
        g.pool.iter().filter(|a| a.can_receive_memo()).count(), g.pool.iter().filter(|a| a.is_transparent_only()).count()));
}
