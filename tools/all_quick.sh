#!/bin/bash
# run every registered quick check on /repo (refreshes evidence/); prints one line per property
cd /verif
for p in $(python3 -c "import json;print(' '.join(c['property_id'] for c in json.load(open('MANIFEST.json'))['checks']))"); do
  s=$(date +%s); out=$(./check $p --tier quick --seed ${SEED:-1} 2>&1); rc=$?
  echo "== $p rc=$rc $(( $(date +%s) - s ))s $(echo "$out" | grep -E "^VIOLATION|ok:" | cut -c1-120 | tr '\n' ' ') known=$(echo "$out" | grep -c '^KNOWN-FINDING')"
done
