#!/usr/bin/env python3
"""Regenerate the seeded-change table of DESIGN.md section 13.2 from seeded/*/meta.json."""
import glob, json, os, re
rows = []
for d in sorted(glob.glob('/verif/seeded/C*-*')):
    m = json.load(open(os.path.join(d, 'meta.json')))
    name = os.path.basename(d)
    what = re.sub(r'\s+', ' ', str(m.get('what_breaks', '')))[:260]
    needs = re.sub(r'\s+', ' ', str(m.get('needs_to_manifest', '')))[:200]
    c = m.get('check', {})
    rows.append('| %s | %s | %s | **%s** — %s |' % (name, what.replace('|', '/'), needs.replace('|', '/'), c.get('detected', '?'), re.sub(r'\s+', ' ', c.get('how', '')).replace('|', '/')))
tbl = '| seeded | what it breaks | needs to manifest | caught by `./check` (quick) |\n|---|---|---|---|\n' + '\n'.join(rows)
p = '/verif/DESIGN.md'
s = open(p).read()
a = s.index('| seeded | what it breaks')
b = s.index('\n\n', a) if '\n\n' in s[a:] else len(s)
s = s[:a] + tbl + s[b:]
open(p, 'w').write(s)
print(len(rows), 'rows')
