#!/usr/bin/env python3
"""tools/add_check.py Cxx <level_text> <level_note> <technique>  — add/replace a MANIFEST check entry."""
import json, sys
pid, text, note, tech = sys.argv[1:5]
p = '/verif/MANIFEST.json'
m = json.load(open(p))
e = {
 "property_id": pid,
 "quick_cmd": "./check %s --tier quick" % pid,
 "thorough_cmd": "./check %s --tier thorough" % pid,
 "evidence_file": "evidence/%s.json" % pid,
 "replay_cmd_template": "./check %s --replay {path}" % pid,
 "engine": "coq-proof+correspondence",
 "level_claimed": {"category": "proof", "text": text, "design_ref": "DESIGN.md section 7 %s and section 12-14" % pid},
 "level_note": note,
 "technique": tech,
}
m["checks"] = [c for c in m["checks"] if c["property_id"] != pid] + [e]
m["checks"].sort(key=lambda c: c["property_id"])
m["engines"][0]["serves_properties"] = [c["property_id"] for c in m["checks"]]
json.dump(m, open(p, 'w'), indent=1)
print("checks:", [c["property_id"] for c in m["checks"]])
