#!/bin/bash
# run the thorough tier of the listed properties serially; log verdicts
for p in "$@"; do
  s=$(date +%s); out=$(./check $p --tier thorough --seed 11 2>&1 | grep -E "^VIOLATION|^KNOWN-FINDING|ok:" | cut -c1-200); rc=$?
  echo "== $p $(( $(date +%s) - s ))s"; echo "$out"
done
