#!/bin/sh
# Build everything the checks need from files on disk only (offline).
set -e
cd "$(dirname "$0")"
export CARGO_NET_OFFLINE=true
python3 - <<'PY'
import sys, os
sys.path.insert(0, os.getcwd())
from vlib import setup_all
sys.exit(setup_all.main())
PY
